// inkafacts — rustc_private fact extractor for the inkayaku static checks.
//
// Injected with RUSTC_WORKSPACE_WRAPPER under `cargo +nightly check`; for every workspace crate
// it writes $VERIF_FACTS_DIR/<crate>.<kind>.json with: ADTs, impls, evaluated constants and the
// opt-level-0 MIR of every function body (resolved callees, evaluated constant operands).
// Zero dependencies: JSON is written by hand.
#![feature(rustc_private)]
#![allow(clippy::all)]
extern crate rustc_abi;
extern crate rustc_driver;
extern crate rustc_hir;
extern crate rustc_interface;
extern crate rustc_middle;
extern crate rustc_span;

use rustc_abi::{FieldsShape, Size, Variants};
use rustc_driver::Compilation;
use rustc_hir::def::DefKind;
use rustc_hir::def_id::{DefId, LOCAL_CRATE};
use rustc_middle::mir::interpret::{AllocId, GlobalAlloc, Scalar};
use rustc_middle::mir::{
    self, AggregateKind, AssertKind, BasicBlock, Body, BorrowKind, Const, ConstValue, Operand,
    Place, ProjectionElem, Rvalue, StatementKind, TerminatorKind, UnwindAction,
};
use rustc_middle::ty::{self, Instance, Ty, TyCtxt, TypingEnv};
use rustc_span::Span;
use std::fmt::Write as _;

// ---------------------------------------------------------------------------------------------
// JSON helpers

fn jstr(s: &str) -> String {
    let mut o = String::with_capacity(s.len() + 2);
    o.push('"');
    for c in s.chars() {
        match c {
            '"' => o.push_str("\\\""),
            '\\' => o.push_str("\\\\"),
            '\n' => o.push_str("\\n"),
            '\r' => o.push_str("\\r"),
            '\t' => o.push_str("\\t"),
            c if (c as u32) < 0x20 => {
                let _ = write!(o, "\\u{:04x}", c as u32);
            }
            c => o.push(c),
        }
    }
    o.push('"');
    o
}

fn jbytes(b: &[u8]) -> String {
    // bytes as a JSON array of ints (templates are short)
    let mut o = String::from("[");
    for (i, x) in b.iter().enumerate() {
        if i > 0 {
            o.push(',');
        }
        let _ = write!(o, "{}", x);
    }
    o.push(']');
    o
}

// Stable key: crate name + def path, with positional `{impl#N}` components replaced by the impl's
// self type (and trait) spelled with item names only, so that keys do not shift when an impl is
// added and are identical from inside and outside the defining crate.
fn short_ty<'tcx>(tcx: TyCtxt<'tcx>, ty: Ty<'tcx>) -> String {
    match ty.kind() {
        ty::Adt(def, args) => {
            let mut s = format!("{}", tcx.def_key(def.did()).disambiguated_data.as_sym(true));
            let tys: Vec<String> = args.iter().filter_map(|a| a.as_type()).map(|t| short_ty(tcx, t)).collect();
            if !tys.is_empty() {
                s.push('<');
                s.push_str(&tys.join(","));
                s.push('>');
            }
            s
        }
        ty::Ref(_, inner, m) => format!("&{}{}", if m.is_mut() { "mut " } else { "" }, short_ty(tcx, *inner)),
        ty::Slice(e) => format!("[{}]", short_ty(tcx, *e)),
        ty::Array(e, n) => format!("[{};{}]", short_ty(tcx, *e), n),
        ty::Tuple(ts) => {
            let v: Vec<String> = ts.iter().map(|t| short_ty(tcx, t)).collect();
            format!("({})", v.join(","))
        }
        ty::Param(p) => p.name.to_string(),
        _ => format!("{}", ty),
    }
}

fn impl_name<'tcx>(tcx: TyCtxt<'tcx>, imp: DefId) -> String {
    let self_ty = tcx.type_of(imp).instantiate_identity().skip_norm_wip();
    match tcx.impl_opt_trait_ref(imp) {
        Some(tr) => {
            let tr = tr.skip_binder();
            let mut t = tcx.item_name(tr.def_id).to_string();
            let tys: Vec<String> =
                tr.args.iter().skip(1).filter_map(|a| a.as_type()).map(|x| short_ty(tcx, x)).collect();
            if !tys.is_empty() {
                t.push('<');
                t.push_str(&tys.join(","));
                t.push('>');
            }
            format!("<{} as {}>", short_ty(tcx, self_ty), t)
        }
        None => match self_ty.kind() {
            ty::Adt(def, _) => format!("{}", tcx.def_key(def.did()).disambiguated_data.as_sym(true)),
            _ => format!("<{}>", short_ty(tcx, self_ty)),
        },
    }
}

fn key_of<'tcx>(tcx: TyCtxt<'tcx>, did: DefId) -> String {
    let mut chain = Vec::new();
    let mut cur = did;
    loop {
        if cur.index == rustc_hir::def_id::CRATE_DEF_INDEX {
            break;
        }
        chain.push(cur);
        match tcx.opt_parent(cur) {
            Some(p) => cur = p,
            None => break,
        }
    }
    chain.reverse();
    let mut s = tcx.crate_name(did.krate).to_string();
    for d in chain {
        s.push_str("::");
        if matches!(tcx.def_kind(d), DefKind::Impl { .. }) {
            s.push_str(&impl_name(tcx, d));
        } else {
            let _ = write!(s, "{}", tcx.def_key(d).disambiguated_data.as_sym(true));
        }
    }
    s
}

fn ty_str<'tcx>(ty: Ty<'tcx>) -> String {
    format!("{}", ty)
}

// ---------------------------------------------------------------------------------------------
// constant decoding (layout driven)

fn read_bytes<'tcx>(tcx: TyCtxt<'tcx>, alloc: AllocId, off: u64, len: u64) -> Option<Vec<u8>> {
    match tcx.try_get_global_alloc(alloc)? {
        GlobalAlloc::Memory(m) => {
            let a = m.inner();
            if off.checked_add(len)? > a.len() as u64 {
                return None;
            }
            Some(
                a.inspect_with_uninit_and_ptr_outside_interpreter(off as usize..(off + len) as usize)
                    .to_vec(),
            )
        }
        _ => None,
    }
}

fn read_ptr<'tcx>(tcx: TyCtxt<'tcx>, alloc: AllocId, off: u64) -> Option<(AllocId, u64)> {
    match tcx.try_get_global_alloc(alloc)? {
        GlobalAlloc::Memory(m) => {
            let a = m.inner();
            let prov = a.provenance().ptrs().get(&Size::from_bytes(off))?;
            let b = read_bytes(tcx, alloc, off, 8)?;
            let inner_off = u64::from_le_bytes(b.try_into().ok()?);
            Some((prov.alloc_id(), inner_off))
        }
        _ => None,
    }
}

fn le_u128(b: &[u8]) -> u128 {
    let mut v: u128 = 0;
    for (i, x) in b.iter().enumerate() {
        v |= (*x as u128) << (8 * i);
    }
    v
}

fn int_json(v: u128, bits: u64, signed: bool) -> String {
    if signed {
        let sv = if bits < 128 && (v >> (bits - 1)) & 1 == 1 {
            (v as i128) - (1i128 << bits)
        } else {
            v as i128
        };
        format!("{}", sv)
    } else {
        format!("{}", v)
    }
}

struct Budget {
    left: i64,
}

fn undec(reason: &str) -> String {
    format!("{{\"undecodable\":{}}}", jstr(reason))
}

fn decode<'tcx>(
    tcx: TyCtxt<'tcx>,
    ty: Ty<'tcx>,
    alloc: AllocId,
    off: u64,
    depth: usize,
    budget: &mut Budget,
) -> String {
    if depth > 8 {
        return undec("too deep");
    }
    budget.left -= 1;
    if budget.left < 0 {
        return undec("budget");
    }
    let env = TypingEnv::fully_monomorphized();
    let layout = match tcx.layout_of(env.as_query_input(ty)) {
        Ok(l) => l,
        Err(_) => return undec("no layout"),
    };
    let size = layout.size.bytes();
    match ty.kind() {
        ty::Bool => match read_bytes(tcx, alloc, off, 1) {
            Some(b) => format!("{}", b[0] != 0),
            None => undec("read"),
        },
        ty::Uint(_) | ty::Int(_) => match read_bytes(tcx, alloc, off, size) {
            Some(b) => int_json(le_u128(&b), size * 8, matches!(ty.kind(), ty::Int(_))),
            None => undec("read"),
        },
        ty::Char => match read_bytes(tcx, alloc, off, 4) {
            Some(b) => match char::from_u32(le_u128(&b) as u32) {
                Some(c) => jstr(&c.to_string()),
                None => undec("char"),
            },
            None => undec("read"),
        },
        ty::Float(_) => match read_bytes(tcx, alloc, off, size) {
            Some(b) => {
                let v = le_u128(&b);
                if size == 8 {
                    format!("{{\"f64\":{}}}", jstr(&format!("{:?}", f64::from_bits(v as u64))))
                } else if size == 4 {
                    format!("{{\"f32\":{}}}", jstr(&format!("{:?}", f32::from_bits(v as u32))))
                } else {
                    undec("float width")
                }
            }
            None => undec("read"),
        },
        ty::Array(elem, _) => {
            let n = match layout.fields {
                FieldsShape::Array { count, .. } => count,
                _ => 0,
            };
            let el = match tcx.layout_of(env.as_query_input(*elem)) {
                Ok(l) => l.size.bytes(),
                Err(_) => return undec("elem layout"),
            };
            decode_seq(tcx, *elem, alloc, off, n, el, depth, budget)
        }
        ty::Ref(_, inner, _) => match inner.kind() {
            ty::Str => {
                let (a, o) = match read_ptr(tcx, alloc, off) {
                    Some(x) => x,
                    None => return undec("ptr"),
                };
                let len = match read_bytes(tcx, alloc, off + 8, 8) {
                    Some(b) => le_u128(&b) as u64,
                    None => return undec("len"),
                };
                match read_bytes(tcx, a, o, len) {
                    Some(b) => jstr(&String::from_utf8_lossy(&b)),
                    None => undec("str bytes"),
                }
            }
            ty::Slice(elem) => {
                let (a, o) = match read_ptr(tcx, alloc, off) {
                    Some(x) => x,
                    None => return undec("ptr"),
                };
                let len = match read_bytes(tcx, alloc, off + 8, 8) {
                    Some(b) => le_u128(&b) as u64,
                    None => return undec("len"),
                };
                let el = match tcx.layout_of(env.as_query_input(*elem)) {
                    Ok(l) => l.size.bytes(),
                    Err(_) => return undec("elem layout"),
                };
                decode_seq(tcx, *elem, a, o, len, el, depth, budget)
            }
            _ => {
                if !layout.is_sized() || size != 8 {
                    return undec("fat ref");
                }
                match read_ptr(tcx, alloc, off) {
                    Some((a, o)) => decode(tcx, *inner, a, o, depth + 1, budget),
                    None => undec("ptr"),
                }
            }
        },
        ty::Tuple(tys) => {
            let mut parts = Vec::new();
            for (i, t) in tys.iter().enumerate() {
                parts.push(decode(
                    tcx,
                    t,
                    alloc,
                    off + layout.fields.offset(i).bytes(),
                    depth + 1,
                    budget,
                ));
            }
            format!("[{}]", parts.join(","))
        }
        ty::Adt(def, args) if def.is_struct() => {
            let mut parts = Vec::new();
            for (i, f) in def.non_enum_variant().fields.iter().enumerate() {
                let fty = tcx.normalize_erasing_regions(env, tcx.type_of(f.did).instantiate(tcx, args));
                parts.push(format!(
                    "{}:{}",
                    jstr(f.name.as_str()),
                    decode(tcx, fty, alloc, off + layout.fields.offset(i).bytes(), depth + 1, budget)
                ));
            }
            format!("{{{}}}", parts.join(","))
        }
        ty::Adt(def, _) if def.is_enum() => {
            // field-less enums and Option-like are reported by variant name when the tag is direct
            match &layout.variants {
                Variants::Single { index } => {
                    format!("{{\"variant\":{}}}", jstr(def.variant(*index).name.as_str()))
                }
                Variants::Multiple { tag, tag_field, .. } => {
                    let tsize = tag.size(&tcx).bytes();
                    let toff = layout.fields.offset(tag_field.as_usize()).bytes();
                    match read_bytes(tcx, alloc, off + toff, tsize) {
                        Some(b) => {
                            let raw = le_u128(&b);
                            let mut name = None;
                            for (vi, d) in def.discriminants(tcx) {
                                let mask = if tsize >= 16 { u128::MAX } else { (1u128 << (tsize * 8)) - 1 };
                                if d.val & mask == raw {
                                    name = Some(def.variant(vi).name.to_string());
                                }
                            }
                            match name {
                                Some(n) => format!("{{\"variant\":{},\"tag\":{}}}", jstr(&n), raw),
                                None => format!("{{\"variant\":null,\"tag\":{}}}", raw),
                            }
                        }
                        None => undec("tag"),
                    }
                }
                _ => undec("enum layout"),
            }
        }
        _ => undec(&format!("type {}", ty)),
    }
}

fn decode_seq<'tcx>(
    tcx: TyCtxt<'tcx>,
    elem: Ty<'tcx>,
    alloc: AllocId,
    off: u64,
    n: u64,
    el: u64,
    depth: usize,
    budget: &mut Budget,
) -> String {
    // fast path for integer elements (the attack tables have 100k+ entries)
    let (is_int, signed) = match elem.kind() {
        ty::Uint(_) => (true, false),
        ty::Int(_) => (true, true),
        _ => (false, false),
    };
    if is_int {
        let bytes = match read_bytes(tcx, alloc, off, n * el) {
            Some(b) => b,
            None => return undec("seq bytes"),
        };
        let mut o = String::with_capacity((n as usize) * 8 + 2);
        o.push('[');
        for i in 0..n as usize {
            if i > 0 {
                o.push(',');
            }
            let v = le_u128(&bytes[i * el as usize..(i + 1) * el as usize]);
            o.push_str(&int_json(v, el * 8, signed));
        }
        o.push(']');
        return o;
    }
    let mut parts = Vec::with_capacity(n as usize);
    for i in 0..n {
        parts.push(decode(tcx, elem, alloc, off + i * el, depth + 1, budget));
    }
    format!("[{}]", parts.join(","))
}

fn scalar_json<'tcx>(tcx: TyCtxt<'tcx>, s: Scalar, ty: Ty<'tcx>) -> String {
    match s {
        Scalar::Int(i) => {
            let bits = i.size().bits();
            let raw = i.to_bits(i.size());
            match ty.kind() {
                ty::Bool => format!("{}", raw != 0),
                ty::Char => match char::from_u32(raw as u32) {
                    Some(c) => jstr(&c.to_string()),
                    None => "null".into(),
                },
                ty::Int(_) => int_json(raw, bits, true),
                ty::Uint(_) => int_json(raw, bits, false),
                ty::Float(_) => {
                    if bits == 64 {
                        format!("{{\"f64\":{}}}", jstr(&format!("{:?}", f64::from_bits(raw as u64))))
                    } else {
                        format!("{{\"f32\":{}}}", jstr(&format!("{:?}", f32::from_bits(raw as u32))))
                    }
                }
                _ => format!("{{\"raw\":{}}}", raw),
            }
        }
        Scalar::Ptr(p, _) => {
            // pointer to an allocation: try to decode the pointee when the type is &T
            let (prov, offset) = p.into_raw_parts();
            if let ty::Ref(_, inner, _) = ty.kind() {
                if inner.is_sized(tcx, TypingEnv::fully_monomorphized()) {
                    let mut b = Budget { left: 400_000 };
                    return decode(tcx, *inner, prov.alloc_id(), offset.bytes(), 1, &mut b);
                }
            }
            "null".into()
        }
    }
}

fn constvalue_json<'tcx>(tcx: TyCtxt<'tcx>, v: ConstValue, ty: Ty<'tcx>) -> String {
    match v {
        ConstValue::Scalar(s) => scalar_json(tcx, s, ty),
        ConstValue::ZeroSized => "null".into(),
        ConstValue::Slice { alloc_id, meta } => {
            // &str or &[u8]
            match ty.kind() {
                ty::Ref(_, inner, _) => match inner.kind() {
                    ty::Str => match read_bytes(tcx, alloc_id, 0, meta) {
                        Some(b) => jstr(&String::from_utf8_lossy(&b)),
                        None => "null".into(),
                    },
                    ty::Slice(e) if matches!(e.kind(), ty::Uint(ty::UintTy::U8)) => {
                        match read_bytes(tcx, alloc_id, 0, meta) {
                            Some(b) => format!("{{\"bytes\":{}}}", jbytes(&b)),
                            None => "null".into(),
                        }
                    }
                    ty::Slice(e) => {
                        let env = TypingEnv::fully_monomorphized();
                        match tcx.layout_of(env.as_query_input(*e)) {
                            Ok(l) => {
                                let mut b = Budget { left: 400_000 };
                                decode_seq(tcx, *e, alloc_id, 0, meta, l.size.bytes(), 1, &mut b)
                            }
                            Err(_) => "null".into(),
                        }
                    }
                    _ => "null".into(),
                },
                _ => "null".into(),
            }
        }
        ConstValue::Indirect { alloc_id, offset } => {
            let mut b = Budget { left: 400_000 };
            decode(tcx, ty, alloc_id, offset.bytes(), 0, &mut b)
        }
    }
}

// ---------------------------------------------------------------------------------------------
// MIR -> JSON

struct Cx<'a, 'tcx> {
    tcx: TyCtxt<'tcx>,
    body: &'a Body<'tcx>,
    def: DefId,
    env: TypingEnv<'tcx>,
}

impl<'a, 'tcx> Cx<'a, 'tcx> {
    fn line(&self, sp: Span) -> usize {
        let sp = sp.source_callsite();
        self.tcx.sess.source_map().lookup_char_pos(sp.lo()).line
    }

    fn place(&self, p: &Place<'tcx>) -> String {
        let mut o = format!("{{\"l\":{},\"p\":[", p.local.as_usize());
        let mut first = true;
        for (base, elem) in p.iter_projections() {
            if !first {
                o.push(',');
            }
            first = false;
            match elem {
                ProjectionElem::Deref => o.push_str("\"deref\""),
                ProjectionElem::Field(f, fty) => {
                    let bty = base.ty(&self.body.local_decls, self.tcx);
                    let (name, of) = match bty.ty.kind() {
                        ty::Adt(def, _) => {
                            let v = match bty.variant_index {
                                Some(v) => def.variant(v),
                                None => {
                                    if def.is_enum() {
                                        // should not happen without downcast
                                        def.variant(rustc_abi::VariantIdx::from_u32(0))
                                    } else {
                                        def.non_enum_variant()
                                    }
                                }
                            };
                            (
                                v.fields[f].name.to_string(),
                                Some(key_of(self.tcx, def.did())),
                            )
                        }
                        ty::Closure(did, _) => {
                            let caps = did
                                .as_local()
                                .map(|l| self.tcx.closure_captures(l))
                                .unwrap_or(&[]);
                            let n = caps
                                .get(f.as_usize())
                                .map(|c| c.to_string(self.tcx))
                                .unwrap_or_else(|| format!("upvar{}", f.as_usize()));
                            (n, Some(key_of(self.tcx, *did)))
                        }
                        _ => (format!("{}", f.as_usize()), None),
                    };
                    let _ = write!(
                        o,
                        "{{\"f\":{},\"name\":{},\"of\":{},\"ty\":{}}}",
                        f.as_usize(),
                        jstr(&name),
                        match of {
                            Some(k) => jstr(&k),
                            None => "null".into(),
                        },
                        jstr(&ty_str(fty))
                    );
                }
                ProjectionElem::Index(l) => {
                    let _ = write!(o, "{{\"idx\":{}}}", l.as_usize());
                }
                ProjectionElem::ConstantIndex { offset, min_length, from_end } => {
                    let _ = write!(
                        o,
                        "{{\"cidx\":{},\"min\":{},\"from_end\":{}}}",
                        offset, min_length, from_end
                    );
                }
                ProjectionElem::Subslice { from, to, from_end } => {
                    let _ = write!(o, "{{\"sub\":[{},{}],\"from_end\":{}}}", from, to, from_end);
                }
                ProjectionElem::Downcast(name, vi) => {
                    let n = match name {
                        Some(s) => s.to_string(),
                        None => format!("{}", vi.as_usize()),
                    };
                    let _ = write!(o, "{{\"downcast\":{},\"vi\":{}}}", jstr(&n), vi.as_usize());
                }
                ProjectionElem::OpaqueCast(_) => o.push_str("\"opaque\""),
                ProjectionElem::UnwrapUnsafeBinder(_) => o.push_str("\"unbinder\""),
            }
        }
        o.push_str("]}");
        o
    }

    fn konst(&self, c: &mir::ConstOperand<'tcx>) -> String {
        let ty = c.const_.ty();
        let mut o = format!("{{\"k\":\"const\",\"ty\":{}", jstr(&ty_str(ty)));
        // function items
        if let ty::FnDef(did, gargs) = ty.kind() {
            let mut target = *did;
            let mut resolved = false;
            if let Ok(Some(inst)) = Instance::try_resolve(self.tcx, self.env, *did, gargs) {
                target = inst.def_id();
                resolved = true;
            }
            let _ = write!(
                o,
                ",\"fn\":{},\"fn_display\":{},\"fn_resolved\":{}",
                jstr(&key_of(self.tcx, target)),
                jstr(&self.tcx.def_path_str(target)),
                resolved
            );
            o.push('}');
            return o;
        }
        if let ty::Closure(did, _) = ty.kind() {
            let _ = write!(o, ",\"fn\":{}", jstr(&key_of(self.tcx, *did)));
        }
        match c.const_ {
            Const::Unevaluated(uv, _) => {
                let _ = write!(o, ",\"path\":{}", jstr(&key_of(self.tcx, uv.def)));
                if let Some(p) = uv.promoted {
                    let _ = write!(o, ",\"promoted\":{}", p.as_usize());
                }
            }
            Const::Ty(_, ct) => {
                if let ty::ConstKind::Unevaluated(uv) = ct.kind() {
                    let _ = write!(o, ",\"path\":{}", jstr(&key_of(self.tcx, uv.def)));
                }
                if let ty::ConstKind::Param(p) = ct.kind() {
                    let _ = write!(o, ",\"param\":{}", jstr(p.name.as_str()));
                }
            }
            Const::Val(..) => {}
        }
        // evaluate (no promoted: their value is a reference to an anonymous allocation; the
        // promoted body is emitted separately)
        let is_promoted = matches!(c.const_, Const::Unevaluated(uv, _) if uv.promoted.is_some());
        if !is_promoted {
            match c.const_.eval(self.tcx, self.env, c.span) {
                Ok(v) => {
                    let _ = write!(o, ",\"v\":{}", constvalue_json(self.tcx, v, ty));
                }
                Err(_) => {
                    o.push_str(",\"v\":null,\"generic\":true");
                }
            }
        } else {
            o.push_str(",\"v\":null");
        }
        o.push('}');
        o
    }

    fn operand(&self, op: &Operand<'tcx>) -> String {
        match op {
            Operand::Copy(p) => format!("{{\"k\":\"copy\",\"pl\":{}}}", self.place(p)),
            Operand::Move(p) => format!("{{\"k\":\"move\",\"pl\":{}}}", self.place(p)),
            Operand::Constant(c) => self.konst(c),
            Operand::RuntimeChecks(rc) => {
                format!("{{\"k\":\"rtcheck\",\"which\":{}}}", jstr(&format!("{:?}", rc)))
            }
        }
    }

    fn rvalue(&self, rv: &Rvalue<'tcx>) -> String {
        match rv {
            Rvalue::Use(op, _) => format!("{{\"op\":\"use\",\"a\":[{}]}}", self.operand(op)),
            Rvalue::Repeat(op, n) => format!(
                "{{\"op\":\"repeat\",\"a\":[{}],\"n\":{}}}",
                self.operand(op),
                jstr(&format!("{}", n))
            ),
            Rvalue::Ref(_, bk, p) => format!(
                "{{\"op\":\"ref\",\"mut\":{},\"place\":{}}}",
                matches!(bk, BorrowKind::Mut { .. }),
                self.place(p)
            ),
            Rvalue::ThreadLocalRef(d) => {
                format!("{{\"op\":\"tls\",\"path\":{}}}", jstr(&key_of(self.tcx, *d)))
            }
            Rvalue::RawPtr(k, p) => format!(
                "{{\"op\":\"addr\",\"mut\":{},\"place\":{}}}",
                matches!(k, mir::RawPtrKind::Mut),
                self.place(p)
            ),
            Rvalue::Cast(kind, op, ty) => format!(
                "{{\"op\":\"cast\",\"kind\":{},\"a\":[{}],\"cast_ty\":{}}}",
                jstr(&format!("{:?}", kind)),
                self.operand(op),
                jstr(&ty_str(*ty))
            ),
            Rvalue::BinaryOp(bop, ops) => format!(
                "{{\"op\":\"bin\",\"bop\":{},\"a\":[{},{}]}}",
                jstr(&format!("{:?}", bop)),
                self.operand(&ops.0),
                self.operand(&ops.1)
            ),
            Rvalue::UnaryOp(uop, op) => format!(
                "{{\"op\":\"un\",\"uop\":{},\"a\":[{}]}}",
                jstr(&format!("{:?}", uop)),
                self.operand(op)
            ),
            Rvalue::Discriminant(p) => format!("{{\"op\":\"discr\",\"place\":{}}}", self.place(p)),
            Rvalue::Aggregate(kind, ops) => {
                let a: Vec<String> = ops.iter().map(|o| self.operand(o)).collect();
                let k = match &**kind {
                    AggregateKind::Array(t) => format!("\"kind\":\"array\",\"elem\":{}", jstr(&ty_str(*t))),
                    AggregateKind::Tuple => "\"kind\":\"tuple\"".to_string(),
                    AggregateKind::Adt(did, vi, _, _, _) => {
                        let def = self.tcx.adt_def(*did);
                        let v = def.variant(*vi);
                        let fields: Vec<String> =
                            v.fields.iter().map(|f| jstr(f.name.as_str())).collect();
                        format!(
                            "\"kind\":\"adt\",\"adt\":{},\"variant\":{},\"vi\":{},\"fields\":[{}]",
                            jstr(&key_of(self.tcx, *did)),
                            jstr(v.name.as_str()),
                            vi.as_usize(),
                            fields.join(",")
                        )
                    }
                    AggregateKind::Closure(did, _) => {
                        format!("\"kind\":\"closure\",\"closure\":{}", jstr(&key_of(self.tcx, *did)))
                    }
                    AggregateKind::Coroutine(did, _) => {
                        format!("\"kind\":\"coroutine\",\"closure\":{}", jstr(&key_of(self.tcx, *did)))
                    }
                    AggregateKind::CoroutineClosure(did, _) => {
                        format!("\"kind\":\"coroutine_closure\",\"closure\":{}", jstr(&key_of(self.tcx, *did)))
                    }
                    AggregateKind::RawPtr(..) => "\"kind\":\"rawptr\"".to_string(),
                };
                format!("{{\"op\":\"agg\",{},\"a\":[{}]}}", k, a.join(","))
            }
            Rvalue::CopyForDeref(p) => {
                format!("{{\"op\":\"use\",\"a\":[{{\"k\":\"copy\",\"pl\":{}}}]}}", self.place(p))
            }
            Rvalue::WrapUnsafeBinder(op, _) => {
                format!("{{\"op\":\"use\",\"a\":[{}]}}", self.operand(op))
            }
        }
    }

    fn callee(&self, func: &Operand<'tcx>) -> String {
        if let Operand::Constant(c) = func {
            if let ty::FnDef(did, gargs) = c.const_.ty().kind() {
                let mut target = *did;
                let mut resolved = false;
                let mut inst_kind = String::from("none");
                if let Ok(Some(inst)) = Instance::try_resolve(self.tcx, self.env, *did, gargs) {
                    target = inst.def_id();
                    resolved = true;
                    inst_kind = match inst.def {
                        ty::InstanceKind::Item(_) => "item".into(),
                        ty::InstanceKind::Virtual(..) => "virtual".into(),
                        ty::InstanceKind::ClosureOnceShim { .. } => "closure_once".into(),
                        ty::InstanceKind::FnPtrShim(..) => "fnptr_shim".into(),
                        ty::InstanceKind::Intrinsic(_) => "intrinsic".into(),
                        ty::InstanceKind::DropGlue(..) => "drop_glue".into(),
                        ty::InstanceKind::CloneShim(..) => "clone_shim".into(),
                        _ => "other".into(),
                    };
                }
                let trait_method = self
                    .tcx
                    .opt_associated_item(*did)
                    .and_then(|ai| ai.trait_container(self.tcx).map(|_| key_of(self.tcx, *did)));
                // self type of the call (first generic arg) for trait calls
                let gstr: Vec<String> = gargs.iter().map(|g| format!("{}", g)).collect();
                return format!(
                    "{{\"key\":{},\"display\":{},\"resolved\":{},\"inst\":{},\"local\":{},\"orig\":{},\"trait_method\":{},\"generic_args\":[{}]}}",
                    jstr(&key_of(self.tcx, target)),
                    jstr(&self.tcx.def_path_str(target)),
                    resolved,
                    jstr(&inst_kind),
                    target.is_local(),
                    jstr(&key_of(self.tcx, *did)),
                    match trait_method {
                        Some(k) => jstr(&k),
                        None => "null".into(),
                    },
                    gstr.iter().map(|s| jstr(s)).collect::<Vec<_>>().join(",")
                );
            }
        }
        format!("{{\"key\":null,\"indirect\":{}}}", self.operand(func))
    }

    fn unwind(&self, u: &UnwindAction) -> String {
        match u {
            UnwindAction::Cleanup(b) => format!("{}", b.as_usize()),
            _ => "null".into(),
        }
    }

    fn terminator(&self, t: &mir::Terminator<'tcx>) -> String {
        let line = self.line(t.source_info.span);
        let exp = t.source_info.span.from_expansion();
        let head = format!("\"line\":{},\"exp\":{}", line, exp);
        match &t.kind {
            TerminatorKind::Goto { target } => {
                format!("{{\"k\":\"goto\",{},\"target\":{}}}", head, target.as_usize())
            }
            TerminatorKind::SwitchInt { discr, targets } => {
                let ts: Vec<String> =
                    targets.iter().map(|(v, b)| format!("[{},{}]", v, b.as_usize())).collect();
                let dty = discr.ty(&self.body.local_decls, self.tcx);
                format!(
                    "{{\"k\":\"switch\",{},\"discr\":{},\"discr_ty\":{},\"targets\":[{}],\"otherwise\":{}}}",
                    head,
                    self.operand(discr),
                    jstr(&ty_str(dty)),
                    ts.join(","),
                    targets.otherwise().as_usize()
                )
            }
            TerminatorKind::Return => format!("{{\"k\":\"return\",{}}}", head),
            TerminatorKind::Unreachable => format!("{{\"k\":\"unreachable\",{}}}", head),
            TerminatorKind::UnwindResume => format!("{{\"k\":\"resume\",{}}}", head),
            TerminatorKind::UnwindTerminate(_) => format!("{{\"k\":\"terminate\",{}}}", head),
            TerminatorKind::Drop { place, target, unwind, .. } => format!(
                "{{\"k\":\"drop\",{},\"place\":{},\"target\":{},\"unwind\":{}}}",
                head,
                self.place(place),
                target.as_usize(),
                self.unwind(unwind)
            ),
            TerminatorKind::Call { func, args, destination, target, unwind, .. } => {
                let a: Vec<String> = args.iter().map(|x| self.operand(&x.node)).collect();
                format!(
                    "{{\"k\":\"call\",{},\"callee\":{},\"args\":[{}],\"dest\":{},\"target\":{},\"unwind\":{}}}",
                    head,
                    self.callee(func),
                    a.join(","),
                    self.place(destination),
                    match target {
                        Some(b) => format!("{}", b.as_usize()),
                        None => "null".into(),
                    },
                    self.unwind(unwind)
                )
            }
            TerminatorKind::TailCall { func, args, .. } => {
                let a: Vec<String> = args.iter().map(|x| self.operand(&x.node)).collect();
                format!(
                    "{{\"k\":\"tailcall\",{},\"callee\":{},\"args\":[{}]}}",
                    head,
                    self.callee(func),
                    a.join(",")
                )
            }
            TerminatorKind::Assert { cond, expected, msg, target, unwind } => {
                let m = match &**msg {
                    AssertKind::BoundsCheck { len, index } => format!(
                        "{{\"k\":\"bounds\",\"len\":{},\"index\":{}}}",
                        self.operand(len),
                        self.operand(index)
                    ),
                    AssertKind::Overflow(op, a, b) => format!(
                        "{{\"k\":\"overflow\",\"op\":{},\"a\":[{},{}]}}",
                        jstr(&format!("{:?}", op)),
                        self.operand(a),
                        self.operand(b)
                    ),
                    AssertKind::OverflowNeg(a) => {
                        format!("{{\"k\":\"overflow\",\"op\":\"Neg\",\"a\":[{}]}}", self.operand(a))
                    }
                    AssertKind::DivisionByZero(a) => {
                        format!("{{\"k\":\"divzero\",\"a\":[{}]}}", self.operand(a))
                    }
                    AssertKind::RemainderByZero(a) => {
                        format!("{{\"k\":\"remzero\",\"a\":[{}]}}", self.operand(a))
                    }
                    AssertKind::MisalignedPointerDereference { .. } => "{\"k\":\"ptrcheck\"}".into(),
                    AssertKind::NullPointerDereference => "{\"k\":\"ptrcheck\"}".into(),
                    AssertKind::InvalidEnumConstruction(_) => "{\"k\":\"enumcheck\"}".into(),
                    _ => "{\"k\":\"coroutine\"}".into(),
                };
                format!(
                    "{{\"k\":\"assert\",{},\"cond\":{},\"expected\":{},\"msg\":{},\"target\":{},\"unwind\":{}}}",
                    head,
                    self.operand(cond),
                    expected,
                    m,
                    target.as_usize(),
                    self.unwind(unwind)
                )
            }
            TerminatorKind::Yield { resume, .. } => {
                format!("{{\"k\":\"yield\",{},\"target\":{}}}", head, resume.as_usize())
            }
            TerminatorKind::CoroutineDrop => format!("{{\"k\":\"codrop\",{}}}", head),
            TerminatorKind::FalseEdge { real_target, .. } => {
                format!("{{\"k\":\"goto\",{},\"target\":{}}}", head, real_target.as_usize())
            }
            TerminatorKind::FalseUnwind { real_target, .. } => {
                format!("{{\"k\":\"goto\",{},\"target\":{}}}", head, real_target.as_usize())
            }
            TerminatorKind::InlineAsm { targets, .. } => {
                let ts: Vec<String> = targets.iter().map(|b| format!("{}", b.as_usize())).collect();
                format!("{{\"k\":\"asm\",{},\"targets\":[{}]}}", head, ts.join(","))
            }
        }
    }

    fn body_json(&self) -> String {
        let body = self.body;
        let mut o = String::new();
        o.push_str("\"locals\":[");
        for (i, d) in body.local_decls.iter().enumerate() {
            if i > 0 {
                o.push(',');
            }
            let _ = write!(o, "{{\"ty\":{}}}", jstr(&ty_str(d.ty)));
        }
        o.push_str("],\"names\":{");
        let mut firstn = true;
        for vdi in &body.var_debug_info {
            if let mir::VarDebugInfoContents::Place(p) = &vdi.value {
                if p.projection.is_empty() {
                    if !firstn {
                        o.push(',');
                    }
                    firstn = false;
                    let _ = write!(o, "\"{}\":{}", p.local.as_usize(), jstr(vdi.name.as_str()));
                }
            }
        }
        o.push_str("},\"blocks\":[");
        for (bi, bb) in body.basic_blocks.iter_enumerated() {
            if bi != BasicBlock::from_u32(0) {
                o.push(',');
            }
            let _ = write!(o, "{{\"cleanup\":{},\"stmts\":[", bb.is_cleanup);
            let mut first = true;
            for st in &bb.statements {
                let (dst, rv) = match &st.kind {
                    StatementKind::Assign(b) => (self.place(&b.0), self.rvalue(&b.1)),
                    StatementKind::SetDiscriminant { place, variant_index } => (
                        self.place(place),
                        format!("{{\"op\":\"setdiscr\",\"vi\":{}}}", variant_index.as_usize()),
                    ),
                    StatementKind::Intrinsic(i) => match &**i {
                        mir::NonDivergingIntrinsic::CopyNonOverlapping(_) => {
                            ("null".to_string(), "{\"op\":\"copy_nonoverlapping\"}".to_string())
                        }
                        _ => continue,
                    },
                    _ => continue,
                };
                if !first {
                    o.push(',');
                }
                first = false;
                let _ = write!(
                    o,
                    "{{\"dst\":{},\"rv\":{},\"line\":{},\"exp\":{}}}",
                    dst,
                    rv,
                    self.line(st.source_info.span),
                    st.source_info.span.from_expansion()
                );
            }
            let _ = write!(o, "],\"term\":{}}}", self.terminator(bb.terminator()));
        }
        o.push(']');
        o
    }
}

fn fn_record<'tcx>(
    tcx: TyCtxt<'tcx>,
    did: DefId,
    body: &Body<'tcx>,
    kind: &str,
    parent: Option<String>,
    key: &str,
) -> String {
    let env = TypingEnv::post_analysis(tcx, did);
    let cx = Cx { tcx, body, def: did, env };
    let _ = cx.def;
    let sp = tcx.def_span(did);
    let loc = tcx.sess.source_map().lookup_char_pos(sp.lo());
    let file = format!("{}", loc.file.name.prefer_local_unconditionally());
    let generics: Vec<String> = if matches!(tcx.def_kind(did), DefKind::Fn | DefKind::AssocFn) {
        tcx.generics_of(did)
            .own_params
            .iter()
            .filter(|p| !matches!(p.kind, ty::GenericParamDefKind::Lifetime))
            .map(|p| jstr(p.name.as_str()))
            .collect()
    } else {
        vec![]
    };
    let generics_all: Vec<String> = {
        let g = tcx.generics_of(did);
        (0..g.count()).map(|i| jstr(g.param_at(i, tcx).name.as_str())).collect()
    };
    let is_unsafe = if matches!(tcx.def_kind(did), DefKind::Fn | DefKind::AssocFn) {
        tcx.fn_sig(did).skip_binder().safety().is_unsafe()
    } else {
        false
    };
    let vis_pub = if matches!(tcx.def_kind(did), DefKind::Fn | DefKind::AssocFn) {
        tcx.visibility(did).is_public()
    } else {
        false
    };
    let in_test = in_cfg_test(tcx, did);
    format!(
        "{}:{{\"display\":{},\"file\":{},\"line\":{},\"kind\":{},\"parent\":{},\"generics\":[{}],\"generics_all\":[{}],\"args\":{},\"is_unsafe\":{},\"is_pub\":{},\"test\":{},{}}}",
        jstr(key),
        jstr(&tcx.def_path_str(did)),
        jstr(&file),
        loc.line,
        jstr(kind),
        match parent {
            Some(p) => jstr(&p),
            None => "null".into(),
        },
        generics.join(","),
        generics_all.join(","),
        body.arg_count,
        is_unsafe,
        vis_pub,
        in_test,
        cx.body_json()
    )
}

// a definition is "test code" when it or an enclosing module carries #[cfg(test)] (only visible
// when compiling the test target) or #[test]
fn in_cfg_test<'tcx>(tcx: TyCtxt<'tcx>, did: DefId) -> bool {
    let mut cur = Some(did);
    while let Some(d) = cur {
        if let Some(name) = tcx.opt_item_name(d) {
            let n = name.as_str();
            if n == "tests" || n == "test" {
                if matches!(tcx.def_kind(d), DefKind::Mod) {
                    return true;
                }
            }
        }
        cur = tcx.opt_parent(d);
    }
    false
}

struct Cb;

impl rustc_driver::Callbacks for Cb {
    fn after_analysis<'tcx>(
        &mut self,
        _c: &rustc_interface::interface::Compiler,
        tcx: TyCtxt<'tcx>,
    ) -> Compilation {
        let dir = match std::env::var("VERIF_FACTS_DIR") {
            Ok(d) => d,
            Err(_) => return Compilation::Continue,
        };
        let run_id = std::env::var("VERIF_RUN_ID").unwrap_or_default();
        let krate = tcx.crate_name(LOCAL_CRATE).to_string();
        // build scripts and proc macros are not interesting
        if krate == "build_script_build" {
            return Compilation::Continue;
        }
        let crate_types = tcx.crate_types();
        let kind = if crate_types.iter().any(|t| matches!(t, rustc_session_config::CrateType::Executable)) {
            "bin"
        } else {
            "lib"
        };
        let is_test = tcx.sess.opts.test;
        let bodies_for = std::env::var("VERIF_BODIES").unwrap_or_else(|_| "*".into());
        let want_bodies = bodies_for == "*" || bodies_for.split(',').any(|c| c == krate);

        let mut out = String::with_capacity(1 << 22);
        let _ = write!(
            out,
            "{{\"run_id\":{},\"crate\":{},\"kind\":{},\"test_harness\":{},\"profile\":{{\"overflow_checks\":{},\"debug_assertions\":{}}},",
            jstr(&run_id),
            jstr(&krate),
            jstr(kind),
            is_test,
            tcx.sess.overflow_checks(),
            tcx.sess.opts.debug_assertions
        );

        // ---- ADTs
        out.push_str("\"adts\":{");
        let mut first = true;
        for id in tcx.hir_free_items() {
            let did = id.owner_id.to_def_id();
            if !matches!(tcx.def_kind(did), DefKind::Struct | DefKind::Enum | DefKind::Union) {
                continue;
            }
            let def = tcx.adt_def(did);
            if !first {
                out.push(',');
            }
            first = false;
            let _ = write!(
                out,
                "{}:{{\"display\":{},\"kind\":{},\"variants\":[",
                jstr(&key_of(tcx, did)),
                jstr(&tcx.def_path_str(did)),
                jstr(if def.is_enum() { "enum" } else if def.is_struct() { "struct" } else { "union" })
            );
            for (vi, v) in def.variants().iter().enumerate() {
                if vi > 0 {
                    out.push(',');
                }
                let _ = write!(out, "{{\"name\":{},\"fields\":[", jstr(v.name.as_str()));
                for (fi, f) in v.fields.iter().enumerate() {
                    if fi > 0 {
                        out.push(',');
                    }
                    let fty = tcx.type_of(f.did).instantiate_identity().skip_norm_wip();
                    let _ = write!(
                        out,
                        "{{\"name\":{},\"ty\":{},\"pub\":{}}}",
                        jstr(f.name.as_str()),
                        jstr(&ty_str(fty)),
                        f.vis.is_public()
                    );
                }
                out.push_str("]}");
            }
            out.push_str("]}");
        }
        out.push_str("},");

        // ---- impls
        out.push_str("\"impls\":[");
        let mut first = true;
        for id in tcx.hir_free_items() {
            let did = id.owner_id.to_def_id();
            if !matches!(tcx.def_kind(did), DefKind::Impl { .. }) {
                continue;
            }
            if !first {
                out.push(',');
            }
            first = false;
            let self_ty = tcx.type_of(did).instantiate_identity().skip_norm_wip();
            let tr = tcx.impl_opt_trait_ref(did).map(|t| t.skip_binder().def_id);
            let self_adt = match self_ty.kind() {
                ty::Adt(d, _) => Some(key_of(tcx, d.did())),
                _ => None,
            };
            let _ = write!(
                out,
                "{{\"key\":{},\"trait\":{},\"trait_display\":{},\"self_ty\":{},\"self_adt\":{},\"methods\":{{",
                jstr(&key_of(tcx, did)),
                match tr {
                    Some(t) => jstr(&key_of(tcx, t)),
                    None => "null".into(),
                },
                match tr {
                    Some(t) => jstr(&tcx.def_path_str(t)),
                    None => "null".into(),
                },
                jstr(&ty_str(self_ty)),
                match self_adt {
                    Some(k) => jstr(&k),
                    None => "null".into(),
                }
            );
            let mut f2 = true;
            for ai in tcx.associated_items(did).in_definition_order() {
                if !matches!(ai.kind, ty::AssocKind::Fn { .. }) {
                    continue;
                }
                if !f2 {
                    out.push(',');
                }
                f2 = false;
                let trait_item = ai.trait_item_def_id().map(|d| key_of(tcx, d));
                let _ = write!(
                    out,
                    "{}:{{\"fn\":{},\"trait_item\":{}}}",
                    jstr(ai.name().as_str()),
                    jstr(&key_of(tcx, ai.def_id)),
                    match trait_item {
                        Some(k) => jstr(&k),
                        None => "null".into(),
                    }
                );
            }
            out.push_str("}}");
        }
        out.push_str("],");

        // ---- traits (default bodies)
        out.push_str("\"traits\":{");
        let mut first = true;
        for id in tcx.hir_free_items() {
            let did = id.owner_id.to_def_id();
            if !matches!(tcx.def_kind(did), DefKind::Trait) {
                continue;
            }
            if !first {
                out.push(',');
            }
            first = false;
            let _ = write!(out, "{}:{{\"display\":{},\"methods\":{{", jstr(&key_of(tcx, did)), jstr(&tcx.def_path_str(did)));
            let mut f2 = true;
            for ai in tcx.associated_items(did).in_definition_order() {
                if !matches!(ai.kind, ty::AssocKind::Fn { .. }) {
                    continue;
                }
                if !f2 {
                    out.push(',');
                }
                f2 = false;
                let _ = write!(
                    out,
                    "{}:{{\"fn\":{},\"has_default\":{}}}",
                    jstr(ai.name().as_str()),
                    jstr(&key_of(tcx, ai.def_id)),
                    ai.defaultness(tcx).has_value()
                );
            }
            out.push_str("}}");
        }
        out.push_str("},");

        // ---- constants
        out.push_str("\"consts\":{");
        let mut first = true;
        for def in tcx.mir_keys(()) {
            let did = def.to_def_id();
            let kind = tcx.def_kind(did);
            let is_static = matches!(kind, DefKind::Static { .. });
            if !matches!(kind, DefKind::Const { .. } | DefKind::AssocConst { .. }) && !is_static {
                continue;
            }
            // generic parents cannot be evaluated polymorphically; skip quietly
            let ty = tcx.type_of(did).instantiate_identity().skip_norm_wip();
            let val = if is_static {
                match tcx.eval_static_initializer(did) {
                    Ok(alloc) => {
                        // decode through a fresh pseudo allocation is not possible without an id;
                        // use the static's own alloc id
                        let id = tcx.reserve_and_set_static_alloc(did);
                        let _ = alloc;
                        // statics are GlobalAlloc::Static: read through eval'd memory instead
                        let _ = id;
                        undec("static")
                    }
                    Err(_) => undec("static eval"),
                }
            } else if tcx.generics_of(did).requires_monomorphization(tcx)
                && !matches!(kind, DefKind::AssocConst { .. })
            {
                undec("generic")
            } else {
                match tcx.const_eval_poly(did) {
                    Ok(v) => constvalue_json(tcx, v, ty),
                    Err(_) => undec("eval error"),
                }
            };
            if !first {
                out.push(',');
            }
            first = false;
            let sp = tcx.def_span(did);
            let loc = tcx.sess.source_map().lookup_char_pos(sp.lo());
            let _ = write!(
                out,
                "{}:{{\"display\":{},\"ty\":{},\"file\":{},\"line\":{},\"exp\":{},\"value\":{}}}",
                jstr(&key_of(tcx, did)),
                jstr(&tcx.def_path_str(did)),
                jstr(&ty_str(ty)),
                jstr(&format!("{}", loc.file.name.prefer_local_unconditionally())),
                loc.line,
                sp.from_expansion(),
                val
            );
        }
        out.push_str("},");

        // ---- functions
        out.push_str("\"fns\":{");
        let mut first = true;
        let mut nfn = 0usize;
        if want_bodies {
            for def in tcx.mir_keys(()) {
                let did = def.to_def_id();
                let dk = tcx.def_kind(did);
                let kind = match dk {
                    DefKind::Fn => "fn",
                    DefKind::AssocFn => {
                        let p = tcx.parent(did);
                        if matches!(tcx.def_kind(p), DefKind::Trait) {
                            "trait_default"
                        } else {
                            "method"
                        }
                    }
                    DefKind::Closure => "closure",
                    _ => continue,
                };
                // coroutine bodies (async fns of the lichess crates) are skipped: optimized_mir of a
                // coroutine is its state machine, which none of the rules reads
                if tcx.is_coroutine(did) {
                    continue;
                }
                let body = tcx.optimized_mir(did);
                let parent = if dk == DefKind::Closure {
                    Some(key_of(tcx, tcx.typeck_root_def_id(did)))
                } else {
                    None
                };
                let key = key_of(tcx, did);
                if !first {
                    out.push(',');
                }
                first = false;
                out.push_str(&fn_record(tcx, did, body, kind, parent, &key));
                nfn += 1;
                // promoted bodies
                let proms = tcx.promoted_mir(did);
                for (pi, pb) in proms.iter_enumerated() {
                    let pkey = format!("{}::promoted[{}]", key, pi.as_usize());
                    out.push(',');
                    out.push_str(&fn_record(tcx, did, pb, "promoted", Some(key.clone()), &pkey));
                }
            }
        }
        let _ = write!(out, "}},\"nfn\":{}}}", nfn);

        let path = format!("{}/{}.{}{}.json", dir, krate, kind, if is_test { ".test" } else { "" });
        let tmp = format!("{}.tmp.{}", path, std::process::id());
        std::fs::create_dir_all(&dir).ok();
        if std::fs::write(&tmp, out).is_ok() {
            let _ = std::fs::rename(&tmp, &path);
        }
        Compilation::Continue
    }
}

extern crate rustc_session;
use rustc_session::config as rustc_session_config;

fn main() {
    let mut args: Vec<String> = std::env::args().collect();
    // RUSTC_WORKSPACE_WRAPPER: argv[1] is the real rustc
    args.remove(1);
    rustc_driver::run_compiler(&args, &mut Cb);
}
